//! E2/E6 — the exploration driver: runs every index of every scenario family against the real
//! implementation (in parallel), applies the determinism gate to alarms, matches them against
//! the committed known-findings file, writes replay artefacts and the evidence file.

use crate::shim::{Behavior, CallRes, Cb, Shim, ShimErr};
use crate::sim::{Sim, SimState};
use msql_srv::MysqlIntermediary;
use rayon::prelude::*;
use serde_json::{json, Value as J};
use std::cell::RefCell;
use std::collections::BTreeMap;
use std::io;
use std::panic::{self, AssertUnwindSafe};
use std::sync::Arc;
use std::time::Instant;

thread_local! {
    static LAST_PANIC: RefCell<Option<(String, String)>> = RefCell::new(None);
    static GUARD_DEPTH: std::cell::Cell<u32> = std::cell::Cell::new(0);
}

pub fn install_panic_hook() {
    panic::set_hook(Box::new(|info| {
        let loc = info
            .location()
            .map(|l| format!("{}:{}", l.file(), l.line()))
            .unwrap_or_else(|| "?".into());
        let msg = if let Some(s) = info.payload().downcast_ref::<&str>() {
            s.to_string()
        } else if let Some(s) = info.payload().downcast_ref::<String>() {
            s.clone()
        } else {
            "<non-string panic>".into()
        };
        if msg.contains("VERIF harness bug") || GUARD_DEPTH.with(|d| d.get()) == 0 {
            eprintln!("HARNESS BUG at {}: {}", loc, msg);
        }
        LAST_PANIC.with(|p| *p.borrow_mut() = Some((loc, msg)));
    }));
}

pub fn take_panic() -> (String, String) {
    LAST_PANIC
        .with(|p| p.borrow_mut().take())
        .unwrap_or_else(|| ("?".into(), "?".into()))
}

/// Run `f`, turning a panic into (location, message).
pub fn guarded<T>(f: impl FnOnce() -> T) -> Result<T, (String, String)> {
    GUARD_DEPTH.with(|d| d.set(d.get() + 1));
    let r = panic::catch_unwind(AssertUnwindSafe(f));
    GUARD_DEPTH.with(|d| d.set(d.get() - 1));
    match r {
        Ok(v) => Ok(v),
        Err(_) => Err(take_panic()),
    }
}

/// `src/x.rs:123` -> `src/x.rs`, digits in the message -> '#', so keys survive line shifts.
pub fn panic_key(loc: &str, msg: &str) -> String {
    let file = loc.rsplit_once(':').map(|x| x.0).unwrap_or(loc);
    let file = match file.find("src/") {
        Some(i) => &file[i..],
        None => file,
    };
    let mut m = String::new();
    let mut last_hash = false;
    for ch in msg.chars().take(60) {
        if ch.is_ascii_digit() {
            if !last_hash {
                m.push('#');
            }
            last_hash = true;
        } else {
            m.push(ch);
            last_hash = false;
        }
    }
    format!("panic:{}:{}", file, m)
}

#[derive(Debug, Clone, PartialEq)]
pub enum ConnResult {
    Ok,
    ErrIo(io::ErrorKind, String),
    ErrMarker(u64),
    Panic(String, String),
}

impl ConnResult {
    pub fn is_ok(&self) -> bool {
        matches!(self, ConnResult::Ok)
    }
    pub fn is_err(&self) -> bool {
        matches!(self, ConnResult::ErrIo(..) | ConnResult::ErrMarker(..))
    }
    pub fn short(&self) -> String {
        match self {
            ConnResult::Ok => "Ok".into(),
            ConnResult::ErrIo(k, m) => format!("Err({:?}: {})", k, m.chars().take(100).collect::<String>()),
            ConnResult::ErrMarker(m) => format!("Err(shim marker {})", m),
            ConnResult::Panic(l, m) => format!("PANIC at {}: {}", l, m.chars().take(120).collect::<String>()),
        }
    }
}

pub struct Outcome {
    pub res: ConnResult,
    pub log: Vec<(usize, Cb)>,
    pub calls: Vec<CallRes>,
    pub sim: SimState,
}

/// What the client has received: bytes written but never flushed do not count once run_on has
/// returned Ok (on an error return the connection is gone and whatever was written is looked at).
pub fn delivered(o: &Outcome) -> &[u8] {
    if o.res.is_ok() {
        &o.sim.out[..o.sim.flushed]
    } else {
        &o.sim.out
    }
}

impl Outcome {
    pub fn cbs(&self) -> Vec<&Cb> {
        self.log.iter().map(|x| &x.1).collect()
    }
}

pub struct ConnCfg {
    pub behave: Box<dyn FnMut(usize, &Cb) -> Behavior>,
    pub auth_reject: Option<u64>,
    pub tls: Option<Arc<rustls::ServerConfig>>,
    pub iterate_params: bool,
    pub param_probe: Option<crate::shim::ParamProbe>,
    pub skip_iter: Vec<u8>,
    /// (k, marker): the k-th command callback returns Err(marker) after doing its work
    pub fail_after: Option<(usize, u64)>,
}

impl ConnCfg {
    pub fn new(behave: Box<dyn FnMut(usize, &Cb) -> Behavior>) -> Self {
        ConnCfg {
            behave,
            auth_reject: None,
            tls: None,
            iterate_params: true,
            param_probe: None,
            skip_iter: Vec::new(),
            fail_after: None,
        }
    }
}

thread_local! {
    static ENV: std::cell::Cell<u64> = std::cell::Cell::new(0);
    /// fingerprints of the observable outcomes (result, callback log, server output) of the
    /// connections this worker thread has run; drained after every family
    static OUTCOMES: RefCell<(std::collections::HashSet<u64>, u64, bool)> = RefCell::new((std::collections::HashSet::new(), 0, false));
}

const OUTCOME_CAP_PER_THREAD: usize = 1 << 21;

fn fingerprint(res: &ConnResult, log: &[(usize, Cb)], out: &[u8], flushed: usize) -> u64 {
    use std::hash::{Hash, Hasher};
    let mut h = std::collections::hash_map::DefaultHasher::new();
    match res {
        ConnResult::Ok => 0u8.hash(&mut h),
        ConnResult::ErrIo(k, _) => {
            1u8.hash(&mut h);
            format!("{:?}", k).hash(&mut h);
        }
        ConnResult::ErrMarker(m) => {
            2u8.hash(&mut h);
            m.hash(&mut h);
        }
        ConnResult::Panic(_, m) => {
            3u8.hash(&mut h);
            m.hash(&mut h);
        }
    }
    for (_, cb) in log {
        cb.hash(&mut h);
    }
    out.len().hash(&mut h);
    flushed.hash(&mut h);
    if out.len() <= 1 << 16 {
        out.hash(&mut h);
    } else {
        // large outputs: both ends and a stride through the middle
        out[..1 << 15].hash(&mut h);
        out[out.len() - (1 << 15)..].hash(&mut h);
        let mut i = 1 << 15;
        while i < out.len() {
            out[i].hash(&mut h);
            i += 4093;
        }
    }
    h.finish()
}

/// for transports that do not go through `run_conn` (the TLS transport of C18): count this
/// connection and its observable outcome like any other
pub fn record_connection(res: &ConnResult, log: &[Cb], client_saw: &[u8]) {
    let l: Vec<(usize, Cb)> = log.iter().cloned().map(|c| (0, c)).collect();
    record_outcome(fingerprint(res, &l, client_saw, client_saw.len()));
}

fn record_outcome(fp: u64) {
    OUTCOMES.with(|o| {
        let mut o = o.borrow_mut();
        o.1 += 1;
        if o.0.len() < OUTCOME_CAP_PER_THREAD {
            o.0.insert(fp);
        } else if !o.0.contains(&fp) {
            o.2 = true;
        }
    });
}

fn drain_outcomes() -> (std::collections::HashSet<u64>, u64, bool) {
    OUTCOMES.with(|o| std::mem::take(&mut *o.borrow_mut()))
}

pub const N_AMBIENT: u64 = 6;

/// Reads the capability word of the greeting of the tree under test (one throw-away connection)
/// so that handshake variant 4 can mention exactly the bits the server did not offer.
pub fn learn_unoffered_caps() {
    static ONCE: std::sync::Once = std::sync::Once::new();
    ONCE.call_once(|| {
        let st = SimState::new(Arc::new(Vec::new()));
        let o = run_conn(st, ConnCfg::new(Box::new(|_, _| Behavior::Silent)));
        drain_outcomes();
        let caps = crate::refwire::split_packets(&o.sim.out).ok().and_then(|p| p.first().map(|p| o.sim.out[p.start..p.start + p.len].to_vec())).and_then(|g| crate::refwire::parse_greeting(&g).ok()).map(|g| g.caps).unwrap_or(0);
        crate::refwire::UNOFFERED_CAPS.store(!caps, std::sync::atomic::Ordering::Relaxed);
    });
}

/// Run `f` with ambient environment variant `k` (see `apply_ambient`): every `run_conn` inside
/// it talks to another kind of client over another kind of transport. Families whose own
/// alphabet is something else (values, programs, histories) rotate this with the scenario index.
pub fn with_env<T>(k: u64, f: impl FnOnce() -> T) -> T {
    struct Reset(u64);
    impl Drop for Reset {
        fn drop(&mut self) {
            ENV.with(|e| e.set(self.0));
        }
    }
    let _r = Reset(ENV.with(|e| e.replace(k % N_AMBIENT)));
    f()
}

pub fn ambient_name(k: u64) -> &'static str {
    match k % N_AMBIENT {
        0 => "usual 4.1 handshake, whole reads and writes",
        1 => "pre-4.1 handshake layout announcing max_packet_size 2048",
        2 => "handshake with CLIENT_PROTOCOL_41 only, max_packet_size 3000; every transport write accepts 1 byte",
        3 => "libmysqlclient-style handshake (db, plugin, attributes); transport writes accept 7 bytes",
        4 => "handshake mentioning every capability the server did not offer, max_packet_size 65535; reads of at most 61 bytes; transport writes accept 4096 bytes",
        _ => "reads of at most 3 bytes; transport writes accept 1000 bytes",
    }
}

/// Changes only what a conformant server must not care about, and only where the scenario did
/// not decide it itself (no cut positions, gates or faults; default read/write limits).
fn apply_ambient(st: &mut SimState) {
    let k = ENV.with(|e| e.get());
    if k == 0 || !st.cuts.is_empty() || !st.gates.is_empty() || st.fault.is_some() {
        return;
    }
    let def = crate::refwire::default_handshake();
    if (1..=4).contains(&k) && st.input.starts_with(&def) {
        let mut v = crate::refwire::handshake_variant(k).0;
        v.extend_from_slice(&st.input[def.len()..]);
        st.input = Arc::new(v);
    }
    let small_input = st.input.len() < (1 << 20);
    let (r, w) = match k {
        2 => (usize::MAX, 1),
        3 => (usize::MAX, 7),
        4 => (61, 4096),
        5 => (3, 1000),
        _ => (usize::MAX, usize::MAX),
    };
    if st.uniform_read == usize::MAX && small_input {
        st.uniform_read = r;
    }
    if st.write_cap == usize::MAX {
        st.write_cap = w;
    }
}

/// One complete execution of the real `run_on` over the simulated transport.
pub fn run_conn(mut st: SimState, cfg: ConnCfg) -> Outcome {
    apply_ambient(&mut st);
    let sim = Sim::new(st);
    let mut shim = Shim::new(Some(sim.clone()), cfg.behave);
    shim.auth_reject = cfg.auth_reject;
    shim.tls = cfg.tls;
    shim.iterate_params = cfg.iterate_params;
    shim.param_probe = cfg.param_probe;
    shim.skip_iter = cfg.skip_iter;
    shim.fail_after = cfg.fail_after;
    let r = {
        let sh = &mut shim;
        let tr = sim.clone();
        // the crate has three entry points that must be the same server; odd ambient variants
        // enter through run_on_stream
        let via_stream = ENV.with(|e| e.get()) % 2 == 1;
        guarded(move || if via_stream { MysqlIntermediary::run_on_stream(sh, tr) } else { MysqlIntermediary::run_on(sh, tr) })
    };
    let res = match r {
        Ok(Ok(())) => ConnResult::Ok,
        Ok(Err(ShimErr::Io(e))) => ConnResult::ErrIo(e.kind(), e.to_string()),
        Ok(Err(ShimErr::Marker(m))) => ConnResult::ErrMarker(m),
        Err((l, m)) => ConnResult::Panic(l, m),
    };
    shim.sim = None;
    let st = std::mem::replace(&mut *sim.0.borrow_mut(), SimState::new(Arc::new(Vec::new())));
    record_outcome(fingerprint(&res, &shim.log, &st.out, st.flushed));
    Outcome {
        res,
        log: std::mem::take(&mut shim.log),
        calls: std::mem::take(&mut shim.calls),
        sim: st,
    }
}

// ------------------------------------------------------------------------------------------

#[derive(Default, Clone)]
pub struct Stats {
    pub evals: u64,
    /// scenario indices that denote no execution (holes in a mixed-radix index space, histories
    /// that duplicate a shorter one): not counted as evaluations
    pub skipped: u64,
    pub nontrivial: u64,
    pub transitions: u64,
    pub counters: BTreeMap<&'static str, u64>,
}

impl Stats {
    pub fn bump(&mut self, k: &'static str) {
        *self.counters.entry(k).or_insert(0) += 1;
    }
    pub fn add(&mut self, k: &'static str, n: u64) {
        *self.counters.entry(k).or_insert(0) += n;
    }
    fn merge(mut self, o: Stats) -> Stats {
        self.evals += o.evals;
        self.skipped += o.skipped;
        self.nontrivial += o.nontrivial;
        self.transitions += o.transitions;
        for (k, v) in o.counters {
            *self.counters.entry(k).or_insert(0) += v;
        }
        self
    }
}

#[derive(Clone, Debug)]
pub struct Violation {
    /// identifies the failing site / class (what a known finding is keyed by)
    pub key: String,
    pub msg: String,
    pub detail: J,
}

impl Violation {
    pub fn new(key: impl Into<String>, msg: impl Into<String>) -> Self {
        Violation {
            key: key.into(),
            msg: msg.into(),
            detail: J::Null,
        }
    }
    pub fn with(mut self, d: J) -> Self {
        self.detail = d;
        self
    }
}

pub trait Family: Sync + Send {
    fn name(&self) -> String;
    fn len(&self) -> u64;
    /// run scenario `idx` on the real implementation; Err = the property is violated there
    fn run(&self, idx: u64, st: &mut Stats) -> Result<(), Violation>;
    fn describe(&self, idx: u64) -> J;
    fn max_threads(&self) -> Option<usize> {
        None
    }
    /// ambient environment variant for scenario `idx` (0 = none); see `with_env`
    fn ambient(&self, _idx: u64) -> u64 {
        0
    }
}

/// spreads the ambient variants over a mixed-radix index without following any one digit
pub fn rot(idx: u64) -> u64 {
    (idx ^ (idx >> 3) ^ (idx >> 7) ^ (idx >> 13)) % N_AMBIENT
}

fn run_one(fam: &dyn Family, idx: u64, st: &mut Stats) -> Result<(), Violation> {
    let k = fam.ambient(idx);
    if k != 0 {
        st.bump("runs_under_another_ambient_environment");
    }
    with_env(k, || fam.run(idx, st)).map_err(|mut v| {
        if k != 0 {
            v.msg = format!("[{}] {}", ambient_name(k), v.msg);
        }
        v
    })
}

pub struct Check {
    pub id: &'static str,
    pub level: &'static str,
    pub rule: String,
    pub assumptions: Vec<String>,
    pub bounds: J,
    pub exhaustive: bool,
    pub caps_hit: Vec<String>,
    pub families: Vec<Box<dyn Family>>,
    /// counters that must be non-zero, else the exploration was vacuous (machinery error)
    pub required: Vec<&'static str>,
}

struct Found {
    fam: usize,
    idx: u64,
    v: Violation,
}

pub fn hex(b: &[u8]) -> String {
    let mut s = String::with_capacity(b.len() * 2);
    for x in b.iter().take(4096) {
        s.push_str(&format!("{:02x}", x));
    }
    if b.len() > 4096 {
        s.push_str(&format!("...(+{} bytes)", b.len() - 4096));
    }
    s
}

fn known_findings(id: &str) -> (Vec<(String, String)>, usize) {
    let path = "/verif/known_findings.json";
    let txt = match std::fs::read_to_string(path) {
        Ok(t) => t,
        Err(_) => return (Vec::new(), 0),
    };
    let j: J = serde_json::from_str(&txt).expect("known_findings.json must be valid JSON");
    let mut v = Vec::new();
    if let Some(a) = j.get("findings").and_then(|x| x.as_array()) {
        for f in a {
            if f.get("property").and_then(|x| x.as_str()) == Some(id) {
                v.push((
                    f.get("key").and_then(|x| x.as_str()).unwrap_or("").to_string(),
                    f.get("what").and_then(|x| x.as_str()).unwrap_or("").to_string(),
                ));
            }
        }
    }
    let fixed = j.get("fixed").and_then(|x| x.as_array()).map(|a| a.len()).unwrap_or(0);
    (v, fixed)
}

/// Where evidence and replay artefacts go. Always /verif for registered checks; the parallel
/// seed-matrix tool (tools/par_try.sh) points it at a scratch directory so that runs against
/// patched copies of the repository never overwrite the evidence of the tree under test.
pub fn out_root() -> String {
    std::env::var("VERIF_OUT").unwrap_or_else(|_| "/verif".to_string())
}

pub fn tier_is_quick(tier: &str) -> bool {
    tier != "thorough"
}

/// Run every scenario of every family. Returns the process exit code.
pub fn drive(check: Check, tier: &str, seed: i64) -> i32 {
    learn_unoffered_caps();
    let t0 = Instant::now();
    let mut total = Stats::default();
    let mut found: Vec<Found> = Vec::new();
    let mut fam_info = Vec::new();
    let mut outcomes: std::collections::HashSet<u64> = std::collections::HashSet::new();
    let mut conn_runs = 0u64;
    let mut outcomes_saturated = false;
    for (fi, fam) in check.families.iter().enumerate() {
        let tf = Instant::now();
        let n = fam.len();
        let work = |range: std::ops::Range<u64>| -> (Stats, Vec<Found>) {
            range
                .into_par_iter()
                .fold(
                    || (Stats::default(), Vec::<Found>::new()),
                    |(mut st, mut fv), idx| {
                        st.evals += 1;
                        let r = guarded(|| run_one(fam.as_ref(), idx, &mut st));
                        match r {
                            Ok(Ok(())) => {}
                            Ok(Err(v)) => {
                                if fv.len() < 64 {
                                    fv.push(Found { fam: fi, idx, v });
                                }
                            }
                            Err((loc, msg)) => {
                                // a panic outside run_conn's own guard: harness code panicked
                                if fv.len() < 64 {
                                    fv.push(Found {
                                        fam: fi,
                                        idx,
                                        v: Violation::new(
                                            format!("harness-panic:{}", loc),
                                            format!("harness panicked at {}: {}", loc, msg),
                                        ),
                                    });
                                }
                            }
                        }
                        (st, fv)
                    },
                )
                .reduce(
                    || (Stats::default(), Vec::new()),
                    |(a, mut av), (b, bv)| {
                        av.extend(bv);
                        av.truncate(256);
                        (a.merge(b), av)
                    },
                )
        };
        let collect = || -> Vec<(std::collections::HashSet<u64>, u64, bool)> { rayon::broadcast(|_| drain_outcomes()) };
        let (st, fv, mut drained) = match fam.max_threads() {
            Some(k) => {
                let pool = rayon::ThreadPoolBuilder::new().num_threads(k).build().unwrap();
                pool.install(|| {
                    let (a, b) = work(0..n);
                    (a, b, collect())
                })
            }
            None => {
                let (a, b) = work(0..n);
                (a, b, Vec::new())
            }
        };
        // families may also run connections on the global pool (nested parallelism) or here
        drained.extend(collect());
        drained.push(drain_outcomes());
        for (set, runs, sat) in drained {
            conn_runs += runs;
            outcomes_saturated |= sat;
            outcomes.extend(set);
        }
        fam_info.push(json!({"family": fam.name(), "scenarios": n, "executions": st.evals - st.skipped.min(st.evals), "wall_s": tf.elapsed().as_secs_f64()}));
        total = total.merge(st);
        found.extend(fv);
    }

    // harness panics are machinery failures, never verdicts
    if let Some(f) = found.iter().find(|f| f.v.key.starts_with("harness-panic:")) {
        eprintln!(
            "MACHINERY ERROR property={} family={} idx={}: {}",
            check.id,
            check.families[f.fam].name(),
            f.idx,
            f.v.msg
        );
        return 2;
    }

    // vacuity guard (only meaningful when every execution ran to its end, i.e. no alarm)
    for k in &check.required {
        if !found.is_empty() {
            break;
        }
        if total.counters.get(k).copied().unwrap_or(0) == 0 {
            eprintln!("MACHINERY ERROR property={}: anti-vacuity counter '{}' is zero", check.id, k);
            return 2;
        }
    }

    // distinct violation keys, smallest (family, idx) first
    found.sort_by(|a, b| (a.fam, a.idx).cmp(&(b.fam, b.idx)));
    let mut by_key: BTreeMap<String, &Found> = BTreeMap::new();
    for f in &found {
        by_key.entry(f.v.key.clone()).or_insert(f);
    }
    let (known, _nfixed) = known_findings(check.id);
    let mut exit = 0;
    let mut n_viol = 0;
    let mut printed = 0;
    // candidates per key, smallest (family, idx) first
    let mut cands: BTreeMap<String, Vec<&Found>> = BTreeMap::new();
    for f in &found {
        let v = cands.entry(f.v.key.clone()).or_default();
        if v.len() < 6 {
            v.push(f);
        }
    }
    let mut keys: Vec<(&String, &&Found)> = by_key.iter().collect();
    keys.sort_by(|a, b| (a.1.fam, a.1.idx).cmp(&(b.1.fam, b.1.idx)));
    let mut unreproducible: Vec<String> = Vec::new();
    // an alarm that does not repeat when its scenario is run again on its own may still be real:
    // the implementation may keep state between connections served by one thread. Such an alarm
    // counts only if it repeats, twice, on a fresh thread that first runs the k scenarios
    // enumerated before it (the order in which a worker meets them) - the history is then part of
    // the replay artefact.
    let after_predecessors = |f: &Found| -> Option<u64> {
        for k in [1u64, 2, 3, 5, 8, 16, 32] {
            if k > f.idx {
                break;
            }
            let mut all_same = true;
            for _ in 0..2 {
                let fam = check.families[f.fam].as_ref();
                let (idx, key, msg) = (f.idx, f.v.key.clone(), f.v.msg.clone());
                let same = std::thread::scope(|sc| {
                    sc.spawn(move || {
                        let mut st = Stats::default();
                        for j in idx - k..idx {
                            let _ = guarded(|| run_one(fam, j, &mut st));
                        }
                        matches!(guarded(|| run_one(fam, idx, &mut st)), Ok(Err(v)) if v.key == key && v.msg == msg)
                    })
                    .join()
                    .unwrap_or(false)
                });
                if !same {
                    all_same = false;
                    break;
                }
            }
            if all_same {
                return Some(k);
            }
        }
        None
    };
    let mut history_notes: BTreeMap<String, u64> = BTreeMap::new();
    let mut chosen: Vec<(&String, &Found)> = Vec::new();
    for (key, _) in keys {
        let mut pick: Option<&Found> = None;
        for f in &cands[key] {
            // determinism gate: the same scenario must fail the same way twice more
            let mut same = true;
            for _ in 0..2 {
                let mut st = Stats::default();
                let again = guarded(|| run_one(check.families[f.fam].as_ref(), f.idx, &mut st));
                same = matches!(&again, Ok(Err(v)) if v.key == f.v.key && v.msg == f.v.msg);
                if !same {
                    break;
                }
            }
            if same {
                pick = Some(f);
                break;
            }
            if let Some(k) = after_predecessors(f) {
                history_notes.insert(key.clone(), k);
                pick = Some(f);
                break;
            }
        }
        match pick {
            Some(f) => chosen.push((key, f)),
            None => unreproducible.push(format!("{} [{}#{}]: {}", key, check.families[cands[key][0].fam].name(), cands[key][0].idx, cands[key][0].v.msg.chars().take(300).collect::<String>())),
        }
    }
    if chosen.is_empty() && !unreproducible.is_empty() {
        eprintln!("MACHINERY ERROR property={}: {} alarm(s), none repeats - neither on its own nor after the scenarios enumerated before it; first: {}", check.id, unreproducible.len(), unreproducible[0]);
        return 2;
    }
    for u in &unreproducible {
        println!("NOTE property={}: a further alarm did not repeat and is not counted: {}", check.id, u);
    }
    for (key, f) in chosen {
        if let Some((_, what)) = known.iter().find(|(k, _)| k == key) {
            println!("KNOWN-FINDING: property={} {} [{}]", check.id, what, key);
            continue;
        }
        n_viol += 1;
        exit = 1;
        if printed < 12 {
            printed += 1;
            let dir = format!("{}/replays/{}", out_root(), check.id);
            let _ = std::fs::create_dir_all(&dir);
            let path = format!("{}/{}.json", dir, printed);
            let art = json!({
                "property": check.id,
                "tier": tier,
                "family": check.families[f.fam].name(),
                "index": f.idx,
                "key": f.v.key,
                "message": f.v.msg,
                "scenario": check.families[f.fam].describe(f.idx),
                "detail": f.v.detail,
                "repeats_only_after_the_preceding_scenarios": history_notes.get(key),
                "replay": format!("/verif/check {} replay {}", check.id, path),
            });
            std::fs::write(&path, serde_json::to_string_pretty(&art).unwrap()).unwrap();
            println!("VIOLATION property={} replay={}", check.id, path);
            println!("  {} [{}#{}]: {}", f.v.key, check.families[f.fam].name(), f.idx, f.v.msg);
            if let Some(k) = history_notes.get(key) {
                println!("  (the outcome depends on what the same thread served before: it repeats, twice, on a fresh thread that first runs scenarios #{}..#{} of the family)", f.idx - k, f.idx - 1);
            }
        }
    }

    // samples: first, middle and last scenario of the first families
    let mut samples = Vec::new();
    for fam in check.families.iter().take(6) {
        let n = fam.len();
        if n == 0 {
            continue;
        }
        for idx in [0, n / 2, n - 1] {
            if samples.len() < 12 {
                samples.push(json!({"family": fam.name(), "index": idx, "scenario": fam.describe(idx)}));
            }
        }
    }
    total.evals -= total.skipped.min(total.evals);
    // say in the evidence which families rotate the ambient environment
    let amb: Vec<String> = check.families.iter().filter(|f| (0..f.len().min(64)).any(|i| f.ambient(i) != 0)).map(|f| f.name()).collect();
    let rule = if amb.is_empty() {
        check.rule.clone()
    } else {
        format!(
            "{} Ambient environment: the scenarios of the families {:?} rotate (by scenario index) through {} client/transport variants that a conformant server must not care about: {}.",
            check.rule,
            amb,
            N_AMBIENT,
            (0..N_AMBIENT).map(ambient_name).collect::<Vec<_>>().join("; ")
        )
    };
    // many families that differ only in a bracketed suffix (e.g. one per read boundary) are
    // reported as one line
    if fam_info.len() > 80 {
        let mut grouped: Vec<(String, u64, u64, f64, u64)> = Vec::new();
        for f in &fam_info {
            let name = f["family"].as_str().unwrap_or("");
            let g = name.split(" [").next().unwrap_or(name).to_string();
            let (sc, ex, w) = (f["scenarios"].as_u64().unwrap_or(0), f["executions"].as_u64().unwrap_or(0), f["wall_s"].as_f64().unwrap_or(0.0));
            match grouped.iter_mut().find(|x| x.0 == g) {
                Some(x) => {
                    x.1 += sc;
                    x.2 += ex;
                    x.3 += w;
                    x.4 += 1;
                }
                None => grouped.push((g, sc, ex, w, 1)),
            }
        }
        fam_info = grouped.into_iter().map(|(g, sc, ex, w, k)| json!({"family": g, "variants": k, "scenarios": sc, "executions": ex, "wall_s": w})).collect();
    }
    let counters: BTreeMap<String, u64> = total.counters.iter().map(|(k, v)| (k.to_string(), *v)).collect();
    let ev = json!({
        "property_id": check.id,
        "tier": if tier_is_quick(tier) { "quick" } else { "thorough" },
        "seed": seed,
        "level": check.level,
        "coverage": {
            "evaluations": total.evals,
            "distinct_nontrivial": total.nontrivial,
            "rule": rule,
            "samples": samples,
            "states": outcomes.len() as u64 + total.evals.saturating_sub(conn_runs),
            "states_rule": "distinct observable outcomes of complete connections (fingerprint of run_on's result, the shim's callback log with arguments, and every byte the server wrote) plus, for evaluations at a value seam that run no connection, one state per enumerated input (inputs are enumerated without repetition)",
            "connection_executions": conn_runs,
            "distinct_connection_outcomes": outcomes.len() as u64,
            "distinct_outcomes_saturated": outcomes_saturated,
            "value_seam_evaluations": total.evals.saturating_sub(conn_runs),
            "transitions": total.transitions.max(1),
            "traces_validated_against_impl": total.evals,
            "exhaustive": check.exhaustive,
            "bounds": check.bounds,
            "caps_hit": check.caps_hit,
            "branch_counters": counters,
            "families": fam_info,
            "distinct_violation_keys": by_key.len(),
        },
        "assumptions": check.assumptions,
        "wall_s": t0.elapsed().as_secs_f64(),
        "violations": n_viol,
    });
    let _ = std::fs::create_dir_all(format!("{}/evidence", out_root()));
    std::fs::write(
        format!("{}/evidence/{}.json", out_root(), check.id),
        serde_json::to_string_pretty(&ev).unwrap(),
    )
    .unwrap();
    println!(
        "{} {}: {} executions, {} non-trivial, {} transitions, {} violation key(s) ({} unlisted), {:.1}s",
        check.id,
        tier,
        total.evals,
        total.nontrivial,
        total.transitions,
        by_key.len(),
        n_viol,
        t0.elapsed().as_secs_f64()
    );
    exit
}

/// Re-run exactly one scenario named by a replay artefact and print both sides.
pub fn replay(check: Check, file: &str) -> i32 {
    learn_unoffered_caps();
    let txt = std::fs::read_to_string(file).expect("cannot read replay file");
    let j: J = serde_json::from_str(&txt).expect("replay file is not JSON");
    let famname = j["family"].as_str().unwrap_or("");
    let idx = j["index"].as_u64().unwrap_or(0);
    let fam = match check.families.iter().find(|f| f.name() == famname) {
        Some(f) => f,
        None => {
            eprintln!("no family named {:?} in check {} (was the artefact written by another tier?)", famname, check.id);
            return 2;
        }
    };
    println!("replaying {} {}#{}", check.id, famname, idx);
    println!("scenario: {}", serde_json::to_string_pretty(&fam.describe(idx)).unwrap());
    let mut st = Stats::default();
    if let Some(k) = j["repeats_only_after_the_preceding_scenarios"].as_u64() {
        println!("first running scenarios #{}..#{} of the family on this thread (the alarm depends on what the thread served before)", idx - k, idx - 1);
        for p in idx - k..idx {
            let _ = guarded(|| run_one(fam.as_ref(), p, &mut st));
        }
    }
    match guarded(|| run_one(fam.as_ref(), idx, &mut st)) {
        Ok(Ok(())) => {
            println!("result: property holds on this scenario");
            0
        }
        Ok(Err(v)) => {
            println!("result: VIOLATION key={} : {}", v.key, v.msg);
            println!("detail: {}", serde_json::to_string_pretty(&v.detail).unwrap());
            1
        }
        Err((l, m)) => {
            println!("result: harness panic at {}: {}", l, m);
            2
        }
    }
}

/// mixed-radix decode helper: idx -> digits for the given radices (least significant first)
pub fn digits(mut idx: u64, radices: &[u64]) -> Vec<u64> {
    let mut d = Vec::with_capacity(radices.len());
    for r in radices {
        d.push(idx % r);
        idx /= r;
    }
    d
}

// ------------------------------------------------------------------------------------------
// Process aborts. A panic inside a destructor that runs while another panic unwinds aborts the
// whole process; catch_unwind cannot turn that into an outcome. `./check` therefore re-runs a
// check that died from a signal in "find-abort" mode: every family is run in a child process, a
// child that dies is bisected down to one scenario index, and that scenario is reported as a
// violation (an abort of the process that serves the connection is the strongest form of
// "run_on panicked").

/// child mode: run the scenarios lo..hi of one family, nothing else. Exit code 0 unless the
/// process dies.
pub fn run_range(check: &Check, fam: usize, lo: u64, hi: u64) -> i32 {
    let f = &check.families[fam];
    let work = || {
        (lo..hi.min(f.len())).into_par_iter().for_each(|idx| {
            let mut st = Stats::default();
            let _ = guarded(|| run_one(f.as_ref(), idx, &mut st));
        })
    };
    match f.max_threads() {
        Some(k) => rayon::ThreadPoolBuilder::new().num_threads(k).build().unwrap().install(work),
        None => work(),
    }
    0
}

fn child_dies(id: &str, tier: &str, fam: usize, lo: u64, hi: u64) -> bool {
    let exe = std::env::current_exe().expect("own path");
    let st = std::process::Command::new(exe)
        .args([id, tier, "--range", &fam.to_string(), &lo.to_string(), &hi.to_string()])
        .stdout(std::process::Stdio::null())
        .stderr(std::process::Stdio::null())
        .status();
    match st {
        Ok(s) => s.code().map(|c| c >= 128 || c < 0).unwrap_or(true),
        Err(_) => false,
    }
}

/// parent mode: find a scenario that kills the process. Returns the exit code of the check.
pub fn find_abort(check: Check, tier: &str) -> i32 {
    for (fi, fam) in check.families.iter().enumerate() {
        let n = fam.len();
        if n == 0 || !child_dies(check.id, tier, fi, 0, n) {
            continue;
        }
        let (mut lo, mut hi) = (0u64, n);
        while hi - lo > 1 {
            let mid = lo + (hi - lo) / 2;
            if child_dies(check.id, tier, fi, lo, mid) {
                hi = mid;
            } else if child_dies(check.id, tier, fi, mid, hi) {
                lo = mid;
            } else {
                eprintln!("MACHINERY ERROR property={}: family {} dies as a whole but neither half of {}..{} does", check.id, fam.name(), lo, hi);
                return 2;
            }
        }
        // determinism gate: the single scenario must kill the process twice more
        if !(child_dies(check.id, tier, fi, lo, lo + 1) && child_dies(check.id, tier, fi, lo, lo + 1)) {
            eprintln!("MACHINERY ERROR property={}: scenario {}#{} does not kill the process every time", check.id, fam.name(), lo);
            return 2;
        }
        let dir = format!("{}/replays/{}", out_root(), check.id);
        let _ = std::fs::create_dir_all(&dir);
        let path = format!("{}/abort.json", dir);
        let art = json!({
            "property": check.id,
            "tier": tier,
            "family": fam.name(),
            "index": lo,
            "key": "process-abort",
            "message": "the process serving the connection aborted (a panic while another panic was unwinding, or a fatal signal) - run_on neither returned nor panicked catchably",
            "scenario": fam.describe(lo),
            "replay": format!("/verif/check {} replay {}  (the replay dies the same way)", check.id, path),
        });
        std::fs::write(&path, serde_json::to_string_pretty(&art).unwrap()).unwrap();
        println!("VIOLATION property={} replay={}", check.id, path);
        println!("  process-abort [{}#{}]: the process aborted while running this scenario (double panic or fatal signal inside the implementation)", fam.name(), lo);
        return 1;
    }
    eprintln!("MACHINERY ERROR property={}: the check died, but no family reproduces it in a child process", check.id);
    2
}
